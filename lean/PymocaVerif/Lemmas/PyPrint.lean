import PymocaVerif.Model.PyPrint
import PymocaVerif.Lemmas.PyGrammar
/-!
# Lemmas about mangling, renaming/evaluation and classification (C24)
-/
namespace PymocaVerif.PyPrint
open PymocaVerif.PyGrammar

/-! ## `replace('.', '__')` and its inverse on clean names -/

theorem clean_tail {c : Char} {r : Name} (h : Clean (c :: r)) : Clean r := by
  cases r with
  | nil => trivial
  | cons d r' => exact h.2

theorem cleanB_iff : ∀ n : Name, cleanB n = true ↔ Clean n
  | [] => by simp [cleanB, Clean]
  | [_] => by simp [cleanB, Clean]
  | c :: d :: r => by
    have ih := cleanB_iff (d :: r)
    simp only [cleanB, Clean, Bool.and_eq_true, ih]
    constructor
    · rintro ⟨h1, h2⟩
      refine ⟨?_, h2⟩
      intro ⟨hc, hd⟩
      subst hc
      rcases hd with hd | hd <;> subst hd <;> simp at h1
    · rintro ⟨h1, h2⟩
      refine ⟨?_, h2⟩
      by_cases hc : c = '_'
      · subst hc
        have : ¬ (d = '_' ∨ d = '.') := fun hd => h1 ⟨rfl, hd⟩
        have h3 : d ≠ '_' := fun h => this (Or.inl h)
        have h4 : d ≠ '.' := fun h => this (Or.inr h)
        simp [h3, h4]
      · simp [hc]

theorem unrepl_step {c d : Char} (r : Name) (h : ¬ (c = '_' ∧ d = '_')) :
    unrepl (c :: d :: r) = c :: unrepl (d :: r) := by
  rw [unrepl]; simp only [h, if_false]

theorem unrepl_uu (r : Name) : unrepl ('_' :: '_' :: r) = '.' :: unrepl r := by
  rw [unrepl]; simp

theorem unrepl_replDots : ∀ n : Name, Clean n → unrepl (replDots n) = n
  | [], _ => by simp [replDots, unrepl]
  | [c], _ => by
    by_cases hc : c = '.'
    · subst hc; simp [replDots, unrepl]
    · simp [replDots, hc, unrepl]
  | c :: d :: r, h => by
    have ih := unrepl_replDots (d :: r) h.2
    by_cases hc : c = '.'
    · subst hc
      have : replDots ('.' :: d :: r) = '_' :: '_' :: replDots (d :: r) := by simp [replDots]
      rw [this, unrepl_uu, ih]
    · have h1 := h.1
      have e1 : replDots (c :: d :: r) = c :: replDots (d :: r) := by
        rw [replDots]; simp only [hc, if_false]
      by_cases hd : d = '.'
      · subst hd
        have hc' : c ≠ '_' := fun hcu => h1 ⟨hcu, Or.inr rfl⟩
        have e2 : replDots ('.' :: r) = '_' :: '_' :: replDots r := by simp [replDots]
        rw [e1, e2] ; rw [e2] at ih
        rw [unrepl_step _ (fun hh => hc' hh.1), ih]
      · have hnot : ¬ (c = '_' ∧ d = '_') := fun hh => h1 ⟨hh.1, Or.inl hh.2⟩
        have e2 : replDots (d :: r) = d :: replDots r := by
          rw [replDots]; simp only [hd, if_false]
        rw [e1, e2]; rw [e2] at ih
        rw [unrepl_step _ hnot, ih]

theorem replDots_injective {a b : Name} (ha : Clean a) (hb : Clean b)
    (h : replDots a = replDots b) : a = b := by
  rw [← unrepl_replDots a ha, ← unrepl_replDots b hb, h]

theorem dot_not_mem_replDots : ∀ n : Name, '.' ∉ replDots n
  | [] => by simp [replDots]
  | c :: r => by
    have ih := dot_not_mem_replDots r
    by_cases hc : c = '.'
    · subst hc; simp [replDots, ih]
    · simp only [replDots, hc, if_false, List.mem_cons, not_or]
      exact ⟨fun h => hc h.symm, ih⟩

/-! ## builtin avoidance -/

def us (k : Nat) : Name := List.replicate k '_'

theorem length_le_maxLen {B : List Name} {b : Name} (h : b ∈ B) : b.length ≤ maxLen B := by
  induction B with
  | nil => simp at h
  | cons a B ih =>
    simp only [maxLen, List.foldr] at ih ⊢
    rcases List.mem_cons.mp h with h | h
    · subst h; exact Nat.le_max_left _ _
    · exact Nat.le_trans (ih h) (Nat.le_max_right _ _)

theorem avoidGo_spec (B : List Name) : ∀ (f : Nat) (n : Name),
    ∃ j, avoidGo B f n = n ++ us j ∧ j ≤ f ∧ (∀ i, i < j → n ++ us i ∈ B) ∧
      (j < f → n ++ us j ∉ B) := by
  intro f
  induction f with
  | zero => intro n; exact ⟨0, by simp [avoidGo, us], Nat.le_refl _, by simp, by simp⟩
  | succ f ih =>
    intro n
    by_cases hn : n ∈ B
    · obtain ⟨j, h1, h2, h3, h4⟩ := ih (n ++ ['_'])
      refine ⟨j + 1, ?_, by omega, ?_, ?_⟩
      · simp only [avoidGo, hn, if_true, h1, us, List.replicate_succ, List.append_assoc,
          List.singleton_append]
      · intro i hi
        cases i with
        | zero => simpa [us] using hn
        | succ i =>
          have := h3 i (by omega)
          simpa [us, List.replicate_succ, List.append_assoc] using this
      · intro hj
        have := h4 (by omega)
        simpa [us, List.replicate_succ, List.append_assoc] using this
    · exact ⟨0, by simp [avoidGo, hn, us], by omega, by simp, by simpa [us] using hn⟩

theorem avoid_spec (B : List Name) (n : Name) :
    ∃ j, avoid B n = n ++ us j ∧ (∀ i, i < j → n ++ us i ∈ B) ∧ avoid B n ∉ B := by
  obtain ⟨j, h1, h2, h3, h4⟩ := avoidGo_spec B (maxLen B + 1) n
  refine ⟨j, h1, h3, ?_⟩
  unfold avoid
  rw [h1]
  by_cases hj : j < maxLen B + 1
  · exact h4 hj
  · intro hmem
    have := length_le_maxLen hmem
    simp [us] at this
    omega

/-- The avoidance loop really avoids the list. -/
theorem avoid_not_mem (B : List Name) (n : Name) : avoid B n ∉ B := (avoid_spec B n).choose_spec.2.2

theorem avoid_of_not_mem {B : List Name} {n : Name} (h : n ∉ B) : avoid B n = n := by
  unfold avoid; simp [avoidGo, h]

theorem us_add (a b : Nat) : us (a + b) = us a ++ us b := by
  simp [us, List.replicate_append_replicate]

theorem avoid_eq_cases {B : List Name} {m m' : Name} (h : avoid B m = avoid B m') :
    m = m' ∨ StemOf B m m' ∨ StemOf B m' m := by
  obtain ⟨j, hj, hjB, _⟩ := avoid_spec B m
  obtain ⟨k, hk, hkB, _⟩ := avoid_spec B m'
  rw [hj, hk] at h
  rcases Nat.lt_trichotomy j k with hlt | heq | hgt
  · -- m = m' ++ us (k - j)
    right; right
    have hk' : k = (k - j - 1 + 1) + j := by omega
    rw [hk', us_add, ← List.append_assoc] at h
    have := List.append_cancel_right h
    refine ⟨?_, k - j - 1, this⟩
    simpa [us] using hkB 0 (by omega)
  · subst heq; left; exact List.append_cancel_right h
  · right; left
    have hj' : j = (j - k - 1 + 1) + k := by omega
    rw [hj', us_add, ← List.append_assoc] at h
    have := List.append_cancel_right h
    refine ⟨?_, j - k - 1, this.symm⟩
    simpa [us] using hjB 0 (by omega)

theorem dot_not_mem_mangleSym (B : List Name) (n : Name) : '.' ∉ mangleSym B n := by
  obtain ⟨j, hj, _, _⟩ := avoid_spec B (replDots n)
  unfold mangleSym
  rw [hj]
  simp only [List.mem_append, not_or]
  refine ⟨dot_not_mem_replDots n, ?_⟩
  simp [us, List.mem_replicate]

theorem mangleSym_ne_selfT (B : List Name) (n : Name) : mangleSym B n ≠ selfT := by
  intro h
  have := dot_not_mem_mangleSym B n
  rw [h] at this
  exact this (by decide)

theorem mangleRef_eq_cases {B : List Name} {a b : Name} (h : mangleRef B a = mangleRef B b) :
    mangleSym B a = mangleSym B b := by
  unfold mangleRef at h
  by_cases ha : mangleSym B a = timeName <;> by_cases hb : mangleSym B b = timeName
  · rw [ha, hb]
  · simp only [ha, hb, if_true, if_false] at h; exact absurd h.symm (mangleSym_ne_selfT B b)
  · simp only [ha, hb, if_true, if_false] at h; exact absurd h (mangleSym_ne_selfT B a)
  · simpa [ha, hb] using h

/-! ## renaming and evaluation -/

theorem noParen_rename (T : Tbl) (f : Name → Name) : ∀ (e : E) (p : Nat),
    NoParen T p (rename f e) ↔ NoParen T p e := by
  intro e
  induction e with
  | atom a => intro p; cases a <;> simp [rename, NoParen]
  | bin o l r ihl ihr => intro p; simp [rename, NoParen, ihl, ihr]
  | pre q e ih => intro p; simp [rename, NoParen, ih]
  | call g e ih => intro p; simp [rename, NoParen, ih]
  | der e ih => intro p; simp [rename, NoParen, ih]

theorem pull_var {α : Type} {f : Name → Name} {vars : List Name} (ρ : Env α) {n : Name}
    (hn : n ∈ vars) (hinj : ∀ a ∈ vars, ∀ b ∈ vars, f a = f b → a = b) :
    (pull f vars ρ).var (f n) = ρ.var n ∧ (pull f vars ρ).dvar (f n) = ρ.dvar n := by
  simp only [pull]
  cases hfind : vars.find? (fun m => f m == f n) with
  | none =>
    have := List.find?_eq_none.mp hfind n hn
    simp at this
  | some m =>
    have hm := List.find?_some hfind
    have hmem := List.mem_of_find?_eq_some hfind
    have : m = n := hinj m hmem n hn (by simpa using hm)
    subst this
    exact ⟨rfl, rfl⟩

theorem eval_rename {α : Type} (A : Alg α) (ρ ρ' : Env α) (f : Name → Name) :
    ∀ e : E, (∀ n ∈ names e, ρ'.var (f n) = ρ.var n ∧ ρ'.dvar (f n) = ρ.dvar n) →
      eval A ρ' (rename f e) = eval A ρ e := by
  intro e
  induction e with
  | atom a =>
    intro h
    cases a with
    | name n => simpa [rename, eval] using (h n (by simp [names])).1
    | num s => simp [rename, eval]
  | bin o l r ihl ihr =>
    intro h
    have hl := ihl (fun n hn => h n (by simp [names, hn]))
    have hr := ihr (fun n hn => h n (by simp [names, hn]))
    simp only [rename, eval, hl, hr]
  | pre q e ih =>
    intro h
    have he := ih (fun n hn => h n (by simpa [names] using hn))
    simp only [rename, eval, he]
  | call g e ih =>
    intro h
    have he := ih (fun n hn => h n (by simpa [names] using hn))
    simp only [rename, eval, he]
  | der e _ =>
    intro h
    cases e with
    | atom a =>
      cases a with
      | name n => simpa [rename, eval] using (h n (by simp [names])).2
      | num s => simp [rename, eval]
    | bin o l r => simp [rename, eval]
    | pre q e => simp [rename, eval]
    | call g e => simp [rename, eval]
    | der e => simp [rename, eval]

/-! ## literals -/

theorem tokLits_append (a b : List Tok) : tokLits (a ++ b) = tokLits a ++ tokLits b := by
  induction a with
  | nil => rfl
  | cons t a ih =>
    cases t with
    | atom x => cases x <;> simp [tokLits, ih]
    | bop _ => simp [tokLits, ih]
    | pop _ => simp [tokLits, ih]
    | lp => simp [tokLits, ih]
    | rp => simp [tokLits, ih]
    | fn _ => simp [tokLits, ih]
    | diff => simp [tokLits, ih]

theorem tokLits_wrapIf (b : Bool) (ts : List Tok) : tokLits (wrapIf b ts) = tokLits ts := by
  cases b <;> simp [wrapIf, tokLits, tokLits_append]

theorem lits_rename (f : Name → Name) : ∀ e : E, lits (rename f e) = lits e := by
  intro e
  induction e with
  | atom a => cases a <;> simp [rename, lits]
  | bin o l r ihl ihr => simp [rename, lits, ihl, ihr]
  | pre q e ih => simp [rename, lits, ih]
  | call g e ih => simp [rename, lits, ih]
  | der e ih => simp [rename, lits, ih]

theorem tokLits_prFix : ∀ e : E, tokLits (prFix e) = lits e := by
  intro e
  induction e with
  | atom a => cases a <;> simp [prFix, lits, tokLits]
  | bin o l r ihl ihr => simp [prFix, lits, tokLits, tokLits_append, tokLits_wrapIf, ihl, ihr]
  | pre q e ih => simp [prFix, lits, tokLits, tokLits_wrapIf, ih]
  | call g e ih => simp [prFix, lits, tokLits, tokLits_append, ih]
  | der e ih => simp [prFix, lits, tokLits, tokLits_append, ih]

theorem tokLits_prCur : ∀ e : E, tokLits (prCur e) = lits e := by
  intro e
  induction e with
  | atom a => cases a <;> simp [prCur, lits, tokLits]
  | bin o l r ihl ihr => simp [prCur, lits, tokLits, tokLits_append, ihl, ihr]
  | pre q e ih => simp [prCur, lits, tokLits, ih]
  | call g e ih => simp [prCur, lits, tokLits, tokLits_append, ih]
  | der e ih => simp [prCur, lits, tokLits, tokLits_append, ih]

/-! ## classification -/

theorem filter_eq_map_const {k : String} {l : List String} (h : l.Nodup) {β : Type} (b : β) :
    (l.filter (· == k)).map (fun _ => b) = if l.contains k then [b] else [] := by
  induction l with
  | nil => simp
  | cons a l ih =>
    have hnd := List.nodup_cons.mp h
    by_cases hak : a = k
    · subst hak
      have : ¬ l.contains a = true := by simpa using hnd.1
      have hfil : l.filter (· == a) = [] := by
        apply List.filter_eq_nil_iff.mpr
        intro x hx hxa
        have : x = a := by simpa using hxa
        subst this
        exact hnd.1 hx
      simp [hfil]
    · have hka : ¬ k = a := fun h => hak h.symm
      have := ih hnd.2
      simp only [List.filter_cons, beq_iff_eq, hak, if_false, this, List.contains_cons]
      simp [hka]

theorem pick_eq_filter {k : String} : ∀ {syms : List Sym}, (∀ s ∈ syms, s.prefixes.Nodup) →
    pick k syms = syms.filter (·.has k) := by
  intro syms
  induction syms with
  | nil => intro _; simp [pick]
  | cons s syms ih =>
    intro h
    have hs := h s (by simp)
    have := ih (fun t ht => h t (by simp [ht]))
    simp only [pick, List.flatMap_cons] at this ⊢
    rw [this, filter_eq_map_const hs s]
    by_cases hk : k ∈ s.prefixes <;> simp [Sym.has, hk]

end PymocaVerif.PyPrint
