from pymoca import parser
from pymoca.backends.sympy import generator as sg
from pymoca.backends.xml import generator as xg
txt = """model M
 parameter Real p = 2; constant Real c = 3; input Real u; output Real y; Real x(start=1); Real v; Real sum; Real a__b; 
 model S Real b; end S; S a;
equation
 der(x) = -(x - u) * p / (c + 1) - 2 ^ 3 ^ 1;
 y = x - (v - u);
 v = (x + u) * (x - u) / (p * c);
 sum = -x ^ 2 + sin(time);
 a.b = 1; a__b = 2;
end M;"""
t = parser.parse(txt, bypass_cache=True)
try:
    print(sg.generate(t, "M"))
except Exception as e: print("EXC", type(e).__name__, e)
t = parser.parse(txt.replace("- 2 ^ 3 ^ 1",""), bypass_cache=True)
s = sg.generate(t, "M"); print(s)
print(xg.generate(t, "M")[:3000])
