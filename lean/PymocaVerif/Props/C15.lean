import PymocaVerif.Lemmas.SimplifyAliasCount
/-!
# C15 — simplification keeps regular systems square and self-contained

Property theorems about the model `PymocaVerif.Model.Simplify` of `Model.simplify`.
`Balanced m m'`: `#unknowns - #equations` is the same in `m` and `m'` (unknowns = states and
algebraic states, as `check_balanced` counts them).  `Closed m`: no equation, initial equation or
delay argument of `m` mentions a symbol that is in none of `m`'s variable lists — exactly the
condition under which CasADi can build the residual functions.
-/
set_option linter.unusedSectionVars false
namespace PymocaVerif.Simplify
open PymocaVerif.AliasRel Lean.Grind

variable {K : Type} [Field K] [DecidableEq K]

/-! ### objects for the non-vacuity examples -/

def c15E : Engine Rat := { norm := id, gzero := fun _ _ _ _ => false }
def c15I : Interp Rat := ⟨fun x => x, fun x => x, fun _ x => x, fun _ _ _ => 0⟩
/-- `x - 3 = 0`, `e - (y + 1) = 0`, `y - 2*x = 0`, parameter `q = p + 1`, `p = 2` -/
def c15M : Model Rat :=
  { algs := [{ name := "x" }, { name := "e" }, { name := "y" }],
    params := [{ name := "p", value := some (.const 2) }, { name := "q", value := some (.bin .add (.sym "p") (.const 1)) }],
    eqs := [.bin .sub (.sym "x") (.const 3), .bin .sub (.sym "e") (.bin .add (.sym "y") (.sym "q")),
            .bin .sub (.sym "y") (.bin .mul (.const 2) (.sym "x"))] }
def c15O : Opts := { expandMx := true, eliminable := some ["e"] }

theorem c15E_ok : EngineOk c15I c15E := ⟨fun _ _ => rfl, fun _ _ h => h, fun _ _ _ => rfl⟩

theorem c15M_closed : Closed c15M := by
  rw [← dangling_nil_iff]; decide

/-! ### balance -/

/-- `balance_step`: every pass other than the alias detection removes equations and unknowns in
    pairs, for every option set — provided the algebraic states have distinct names (they are keys of
    a Python dict in the real code). -/
theorem balance_step {E : Engine K} (o : Opts) (p : Pass) (hp : p ≠ .alias) {m m' : Model K}
    (hnd : (names m.algs).Nodup) (h : Pass.run E o p m = .ok m') : Balanced m m' := by
  cases p <;> simp only [Pass.run] at h
  · simp at h; subst h; exact resolveLoop_balanced E _ _ m
  · simp at h; subst h; exact pexpr_balanced E m
  · simp at h; subst h; exact cexpr_balanced E m
  · simp at h; subst h; exact cassign_balanced m hnd
  · exact pvalues_balanced h
  · exact cvalues_balanced h
  · exact elim_balanced hnd h
  · simp at h; subst h; exact factor_balanced m
  · exact absurd rfl hp

example : ∃ m', Pass.run c15E c15O .elim c15M = .ok m' ∧ (names c15M.algs).Nodup ∧
    nUnknowns m' = 2 ∧ m'.eqs.length = 2 := ⟨_, rfl, by decide, by decide, by decide⟩

/-- `_make_alias` only ever calls `AliasRelation.add` on two variables that are not yet related (with
    either sign), so every call joins two classes, keeps the invariant `WF` of the relation (shared class
    lists closed under negation, one recorded canonical member per class, `canonical_variables` = the
    canonical names) and makes exactly one more name non-canonical.  This is where the two former
    defects C14-F1/F2 lived; the guard of commit 494f047 is what makes the hypothesis-free statement true. -/
theorem make_alias_joins_classes {cx : AliasCtx} {s s' : AR} {d0 d1 : String} {neg : Bool}
    (hw : WF s) (hj : JInv cx s) (h : makeAlias cx s d0 d1 neg = some (s', true)) :
    WF s' ∧ JInv cx s' ∧ elimCount s' = elimCount s + 1 := by
  rcases makeAlias_facts h with ⟨_, hf⟩ | ⟨_, alg, other, hf⟩
  · simp at hf
  · obtain ⟨h1, h2, _, h4⟩ := jinv_add hw hj (Ext.refl s) hf
    exact ⟨h1, h2, h4⟩

example : makeAlias ⟨[], [], ["x", "y"], [], [], [], true⟩ AR.empty "x" "y" true ≠ none ∧ WF AR.empty := by
  refine ⟨by decide, wf_empty⟩

/-- `balance_step` for the alias detection (first pass: the model's alias relation is still empty):
    every alias equation that is dropped goes together with exactly one algebraic variable that is
    eliminated — unconditionally, for every equation list, every observation of CasADi and every
    option.  Variable names are distinct (one Python dict `all_states`). -/
theorem balance_step_alias {E : Engine K} {allowDer : Bool} {m m' : Model K} (hempty : m.ar = AR.empty)
    (hnd : (names m.states ++ names m.ders ++ names m.algs ++ names m.inputs ++ names m.params ++ names m.consts).Nodup)
    (h : detectAliases E allowDer m = .ok m') : Balanced m m' := alias_balanced_first hempty hnd h

example : ∃ m', detectAliases c15E true
      ({ algs := [{ name := "x" }, { name := "y" }, { name := "z" }],
         eqs := [.bin .sub (.sym "x") (.sym "y"), .bin .add (.sym "y") (.sym "z"), .bin .sub (.sym "z") (.const 2)] } : Model Rat)
      = .ok m' ∧ nUnknowns m' = 1 ∧ m'.eqs.length = 1 := ⟨_, rfl, by decide, by decide⟩

/-- `balance_step` for *any* alias detection pass, in particular the later passes of
    `iterative_simplification`: if the alias relation the pass starts from has the invariant the previous
    pass leaves (`WF`, and `JInv`: non-canonical members are never protected variables), the equations it
    drops and the algebraic variables it eliminates *now* — those the "already handled" test does not
    skip — are equally many.  The counting is relative to the old relation: the base names handled before
    are exactly the non-canonical names of the old relation, they stay non-canonical (`Ext`), and the
    non-canonical names of a relation are as many as `elimCount` (`elim_now_count`). -/
theorem balance_step_alias_any {E : Engine K} {allowDer : Bool} {m m' : Model K} (ho : WF m.ar)
    (hjo : JInv ⟨names m.states, names m.ders, names m.algs, names m.inputs, names m.params, names m.consts, allowDer⟩ m.ar)
    (hnd : (names m.states ++ names m.ders ++ names m.algs ++ names m.inputs ++ names m.params ++ names m.consts).Nodup)
    (h : detectAliases E allowDer m = .ok m') : Balanced m m' := alias_balanced ho hjo hnd h

/-- second pass: `a` was eliminated as alias of `x` before (it is no longer a variable of the model);
    now `x + s = 0` makes the former canonical variable `x` a negative alias of the state `s` (and `w` an alias of `der(s)`) -/
def c15M2 : Model Rat :=
  { states := [{ name := "s" }], ders := [{ name := "der(s)" }], algs := [{ name := "x", aliased := true }, { name := "w" }],
    eqs := [.bin .add (.sym "x") (.sym "s"), .bin .sub (.sym "w") (.bin .mul (.const 2) (.sym "x")),
            .bin .sub (.sym "der(s)") (.sym "w")],
    ar := { al := fun k => if k = (false, "x") ∨ k = (false, "a") then some [(false, "x"), (false, "a")]
                          else if k = (true, "x") ∨ k = (true, "a") then some [(true, "x"), (true, "a")] else none,
            cmap := fun k => if k = (false, "x") ∨ k = (false, "a") then some ("x", false)
                            else if k = (true, "x") ∨ k = (true, "a") then some ("x", true) else none,
            cv := ["x"] } }

example : ∃ m', detectAliases c15E true c15M2 = .ok m' ∧ names m'.algs = [] ∧ m'.eqs.length = 1 ∧ m'.ar.cv = ["s", "der(s)"] ∧
    nUnknowns c15M2 = 3 ∧ nUnknowns m' = 1 := ⟨_, rfl, by decide, by decide, by decide, by decide, by decide⟩

/-! ### self-contained -/

/-- What the substituting passes need in order to leave nothing dangling: the values they substitute
    mention only symbols that stay in the model (for the fixpoint passes: the resolved values). -/
def ClosedPre (E : Engine K) (o : Opts) (p : Pass) (m : Model K) : Prop :=
  match p with
  | .pexpr => ∀ q ∈ fixedList E m.params, ∀ n ∈ q.2.syms,
      n ∈ ({ m with params := m.params.filter Var.simple } : Model K).known
  | .cexpr => ∀ q ∈ fixedList E m.consts, ∀ n ∈ q.2.syms,
      n ∈ ({ m with consts := m.consts.filter Var.simple } : Model K).known
  | .elim => ∀ r, elimLoop (names m.states) (names m.states ++ names m.algs) (o.eliminable.getD []) m.eqs m.algs = .ok r →
      ∀ q ∈ elimList E r.2.1, ∀ n ∈ q.2.syms, n ∈ ({ m with algs := r.2.2 } : Model K).known
  | _ => True

/-- `closed_step`: every pass other than the alias detection maps a self-contained model to a
    self-contained model (so the residual functions can be built), under `ClosedPre`.  In
    particular `replace_parameter_values` and `replace_constant_values` (constant values) and
    `eliminate_constant_assignments` need no precondition. -/
theorem closed_step {I : Interp K} {E : Engine K} (hE : EngineOk I E) (o : Opts) (p : Pass) (hp : p ≠ .alias)
    {m m' : Model K} (hpre : ClosedPre E o p m) (hc : Closed m) (h : Pass.run E o p m = .ok m') : Closed m' := by
  cases p <;> simp only [Pass.run] at h
  · simp at h; subst h; exact resolveLoop_closed E _ _ m hc
  · simp at h; subst h; exact pexpr_closed hE hc hpre
  · simp at h; subst h; exact cexpr_closed hE hc hpre
  · simp at h; subst h; exact cassign_closed m hc
  · exact pvalues_closed hE h hc
  · exact cvalues_closed hE h hc
  · exact elim_closed hE h hc hpre
  · simp at h; subst h; exact factor_closed m hc
  · exact absurd rfl hp

example : EngineOk c15I c15E ∧ Closed c15M ∧ ClosedPre c15E c15O .pvalues c15M := ⟨c15E_ok, c15M_closed, trivial⟩

/-- `closed_step` for the alias detection (first pass): no canonical variable is eliminated, so the
    substituted equations, initial equations and delay arguments only mention remaining variables. -/
theorem closed_step_alias {I : Interp K} {E : Engine K} (hE : EngineOk I E) {allowDer : Bool} {m m' : Model K}
    (hempty : m.ar = AR.empty) (hc : Closed m)
    (hnd : (names m.states ++ names m.ders ++ names m.algs ++ names m.inputs ++ names m.params ++ names m.consts).Nodup)
    (h : detectAliases E allowDer m = .ok m') : Closed m' := alias_closed_first hE hempty hc hnd h

example : (names c15M.states ++ names c15M.ders ++ names c15M.algs ++ names c15M.inputs ++ names c15M.params ++ names c15M.consts).Nodup ∧
    c15M.ar = AR.empty := ⟨by decide, rfl⟩

/-- `closed_step` for any alias detection pass: no canonical variable is eliminated, whatever the
    relation the pass starts from (under its invariant). -/
theorem closed_step_alias_any {I : Interp K} {E : Engine K} (hE : EngineOk I E) {allowDer : Bool} {m m' : Model K}
    (ho : WF m.ar)
    (hjo : JInv ⟨names m.states, names m.ders, names m.algs, names m.inputs, names m.params, names m.consts, allowDer⟩ m.ar)
    (hc : Closed m)
    (hnd : (names m.states ++ names m.ders ++ names m.algs ++ names m.inputs ++ names m.params ++ names m.consts).Nodup)
    (h : detectAliases E allowDer m = .ok m') : Closed m' := alias_closed hE ho hjo hc hnd h

example : Closed c15M2 ∧ ∃ m', detectAliases c15E true c15M2 = .ok m' ∧ m'.dangling = [] :=
  ⟨by rw [← dangling_nil_iff]; decide, _, rfl, by decide⟩

/-! ### one whole `_simplify_once` -/

/-- what each enabled pass needs from the model it receives, along one run -/
def RunPre15 (E : Pass → Engine K) (o : Opts) : List Pass → Model K → Prop
  | [], _ => True
  | p :: ps, m =>
    if p.enabled o then
      ((names m.algs).Nodup ∧ ClosedPre (E p) o p m ∧
        (p = .alias → WF m.ar ∧
          JInv ⟨names m.states, names m.ders, names m.algs, names m.inputs, names m.params, names m.consts,
                o.allowDerivativeAliases⟩ m.ar ∧
          (names m.states ++ names m.ders ++ names m.algs ++ names m.inputs ++ names m.params ++ names m.consts).Nodup)) ∧
      ∀ m', Pass.run (E p) o p m = .ok m' → RunPre15 E o ps m'
    else RunPre15 E o ps m

/-- `balance_pipeline` / `closed_residual`: for every option set and every iteration of the loop of
    `simplify` (the alias relation may be non-empty), a `_simplify_once` that returns leaves
    `#unknowns - #equations` unchanged and a self-contained model self-contained (so all residual
    functions can be built) — by induction over the pass list. -/
theorem simplify_once_square_and_closed {I : Interp K} {E : Pass → Engine K} (hE : ∀ p, EngineOk I (E p)) (o : Opts) :
    ∀ (ps : List Pass) (m m' : Model K), RunPre15 E o ps m → Closed m → runPasses E o ps m = .ok m' →
      Balanced m m' ∧ Closed m'
  | [], m, m', _, hc, h => by simp [runPasses] at h; subst h; exact ⟨Balanced.refl m, hc⟩
  | p :: ps, m, m', hpre, hc, h => by
    simp only [runPasses] at h
    simp only [RunPre15] at hpre
    split at h
    · rename_i hen
      simp only [hen, if_true] at hpre
      split at h
      · simp at h
      · rename_i m1 h1
        obtain ⟨⟨hnd, hcp, hal⟩, hrest⟩ := hpre
        have step : Balanced m m1 ∧ Closed m1 := by
          by_cases hp : p = .alias
          · subst hp
            obtain ⟨hwf, hji, hnames⟩ := hal rfl
            simp only [Pass.run] at h1
            exact ⟨balance_step_alias_any hwf hji hnames h1, closed_step_alias_any (hE _) hwf hji hc hnames h1⟩
          · exact ⟨balance_step o p hp hnd h1, closed_step (hE p) o p hp hcp hc h1⟩
        have ih := simplify_once_square_and_closed hE o ps m1 m' (hrest m1 h1) step.2 h
        exact ⟨Balanced.trans step.1 ih.1, ih.2⟩
    · rename_i hen
      simp only [hen] at hpre
      exact simplify_once_square_and_closed hE o ps m m' (by simpa using hpre) hc h

example : ∃ m', runPasses (fun _ => c15E) c15O Pass.order c15M = .ok m' ∧ nUnknowns m' = 2 ∧ m'.eqs.length = 2 ∧
    m'.dangling = [] := ⟨_, rfl, by decide, by decide, by decide⟩

/-- `closed_residual`, executable form: the list of dangling symbols the driver reports for a model
    is empty exactly when the model is self-contained. -/
theorem closed_residual_iff (m : Model K) : m.dangling = [] ↔ Closed m := dangling_nil_iff m

example : c15M.dangling = [] := by decide

end PymocaVerif.Simplify
