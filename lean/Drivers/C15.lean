/-! Driver for C15 (stub: not built yet). -/
def main : IO Unit := pure ()
