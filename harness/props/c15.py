"""C15 — simplification keeps regular systems square and self-contained.   (work in progress: oracle part)"""
from harness import corpus
from harness.gen import a10_simplify as S

DRIVERS = ["drv_c15"]
RULE = "tbd"
TRUSTED = []
ASSUMPTIONS = []
PROP = "C15"


def run(ctx):
    drv = ctx.driver(DRIVERS[0])
    for c in corpus.load(PROP):
        ctx.count("corpus")
        S.check_case(ctx, PROP, c["case"] if "case" in c else c)
    for case in S.gen_cases(ctx, PROP):
        if ctx.time_left() < 0:
            ctx.notes.append("stopped by the time budget after %d cases" % ctx.evaluations)
            break
        S.check_case(ctx, PROP, case, drv, S.tie_case)


def replay(ctx, payload):
    S.check_case(ctx, PROP, payload["case"], ctx.driver(DRIVERS[0]), S.tie_case)


MANIFEST = dict(level_text="", level_note="", technique="")
READY = False
