"""C15 — simplification keeps regular systems square and self-contained.

Real code: `pymoca.backends.casadi.model.Model.simplify` on the generated models of
harness/gen/a10_simplify.py (square systems with a constructed unique solution, see C14) under
sampled subsets of all simplification options, plus dedicated streams for the option combinations
behind the former findings (constant expressions with replace_constant_values, delay arguments with
replace_parameter_values, `x = time`, reduce_affine_expression with initial equations, iteration
with parameter aliases) and for the open one (iteration with reduce_affine_expression, C15-F7).

Direct oracle (independent of the Lean model): `len(states)+len(alg_states)` minus the number of
scalar equations is the same before and after simplify; the symbols (`ca.symvar`) of the remaining
equations, initial equations and delay arguments are all in a variable list of the simplified
model (or `time`); all four functions (dae residual, initial residual, variable metadata, delay
arguments) that could be built before can be built after; simplify does not raise on these regular
systems (except by design: eliminable_variable_expression without expand_mx).

Correspondence: the pass-by-pass tie of C14 (same model `PymocaVerif.Model.Simplify`, driver
`drv_c15`); for this property the compared observables of every pass are the variable lists, the
number of unknowns and equations after the pass and the list of dangling symbols
(`Model.dangling`, proved equivalent to `Closed` in Props/C15.lean).
"""
from harness import corpus
from harness.gen import a10_simplify as S

PROP = "C15"
DRIVERS = ["drv_c15"]
RULE = ("one case = one generated square model with unique solution and one sampled option set (see C14); extra streams: delay, aliaschain (alias trees over a protected variable), constexpr, "
        "timealias, affineinit, iterparam (former findings, now regression inputs), iteraffine (open finding C15-F7); "
        "non-trivial = the real simplify changed a variable list or the number of equations; distinct = distinct (model text, option set)")
TRUSTED = ["CasADi: `ca.symvar`, construction of `ca.Function` (fails exactly on free symbols), `ca.substitute`",
           "the option-prefix method: `_simplify_once` with the later options switched off stops exactly before the pass under test"]
ASSUMPTIONS = ["scalar models (vector expansion is property C18); variable names are distinct (keys of Python dicts)",
               "an exception raised by simplify on a regular system counts as 'functions cannot be built' unless it is the documented "
               "`eliminable_variable_expression requires expand_mx`",
               "reduce_affine_expression: the row-by-row model is compared by value with the real collapsed residuals (see C14)"]


def run(ctx):
    drv = ctx.driver(DRIVERS[0])
    for c in corpus.load(PROP):
        ctx.count("corpus")
        S.check_case(ctx, PROP, c["case"] if "case" in c else c, drv, S.tie_case)
    for case in S.gen_cases(ctx, PROP):
        if ctx.time_left() < 0:
            ctx.notes.append("stopped by the time budget after %d cases" % ctx.evaluations)
            break
        S.check_case(ctx, PROP, case, drv, S.tie_case)
    ctx.extra["exhaustive"] = False


def replay(ctx, payload):
    S.check_case(ctx, PROP, payload["case"], ctx.driver(DRIVERS[0]), S.tie_case)


MANIFEST = dict(
    level_text="Lean 4 theorems about the executable model of Model._simplify_once: every pass removes equations and unknowns in "
               "pairs and maps a self-contained model to a self-contained one, for all option sets and unbounded models; for the "
               "alias detection (any pass, first or later) this is proved from an invariant of AliasRelation (shared class lists closed under negation, one "
               "canonical member per class) that `_make_alias` preserves because it only joins unrelated variables, with the "
               "counting lemma 'one more non-canonical name per add' and 'non-canonical members are algebraic, canonical ones are "
               "never eliminated'; composed over the pass list of one _simplify_once; the executable `dangling` check is proved "
               "equivalent to self-containedness. Tied to the real code on every run by the pass-by-pass correspondence on the "
               "serialised real MX (counts, variable lists, dangling symbols) and by a direct oracle (balance, symvar containment, "
               "construction of all four CasADi functions).",
    level_note="Trusted: Lean kernel + standard axioms; the harness; CasADi's Function construction. The alias-detection theorems "
               "hold for every pass (also the later passes of iterative_simplification, relative to a non-empty old relation) under "
               "the invariant of the alias relation that the previous pass leaves (hypotheses WF/JInv of the theorems; that the other "
               "passes and AliasRelation.remove re-establish it between iterations is covered by the correspondence, not by a theorem). "
               "Vector expansion is covered by the direct oracle only.",
    technique="Lean 4 proof (invariant of the signed union-find, per-pass counting and closure lemmas, induction over the pass list) + "
              "pass-by-pass model/implementation correspondence + direct oracle",
)
READY = True
