import PymocaVerif.Lemmas.SimplifyAliasInv
import PymocaVerif.Lemmas.SimplifyAliasElim
/-!
# Simplify: `_make_alias` keeps the invariant of the alias relation; one eliminated algebraic
variable per dropped alias equation; canonical variables are never eliminated
Helper lemmas for C15 (and for the completeness part of C14).
-/
set_option linter.unusedSectionVars false
set_option linter.unusedSimpArgs false
namespace PymocaVerif.Simplify
open PymocaVerif.AliasRel Lean.Grind

variable {K : Type} [Field K] [DecidableEq K]

/-! ## `_make_alias` only joins unrelated classes and only unseats algebraic canonical variables -/

/-- what is known when `_make_alias` calls `add(other, ±alg)` -/
structure AddFacts (cx : AliasCtx) (ar ar' : AR) (d0 d1 : String) (neg : Bool) (alg other : String) : Prop where
  pair : (alg = d0 ∧ other = d1) ∨ (alg = d1 ∧ other = d0)
  alg_mem : alg ∈ cx.algs
  other_mem : other ∈ cx.allSt
  not_both : ¬((ar.canonicalSigned (false, alg)).1 ∈ cx.doNotEliminate ∧ (ar.canonicalSigned (false, other)).1 ∈ cx.doNotEliminate)
  swap : other ∈ cx.algs → (ar.canonicalSigned (false, alg)).1 ∉ cx.doNotEliminate ∨
           (ar.canonicalSigned (false, other)).1 ∈ cx.doNotEliminate
  unrel1 : (false, other) ∉ ar.aliases (false, alg)
  unrel2 : (false, other) ∉ ar.aliases (true, alg)
  add : ar.add (false, other) (neg, alg) = some ar'

theorem makeAlias_facts {cx : AliasCtx} {ar ar' : AR} {d0 d1 : String} {neg dropped : Bool}
    (h : makeAlias cx ar d0 d1 neg = some (ar', dropped)) :
    (ar' = ar ∧ dropped = false) ∨ (dropped = true ∧ ∃ alg other, AddFacts cx ar ar' d0 d1 neg alg other) := by
  unfold makeAlias at h
  simp only at h
  split at h
  · simp at h; left; exact ⟨h.1.symm, h.2⟩
  · rename_i alg0 other0 hpick
    have hp : ((alg0 = d0 ∧ other0 = d1) ∨ (alg0 = d1 ∧ other0 = d0)) ∧ alg0 ∈ cx.algs ∧
        (other0 ∈ cx.algs → d0 ∈ cx.algs ∧ d1 ∈ cx.algs) := by
      split at hpick
      · rename_i h0; simp at hpick
        obtain ⟨rfl, rfl⟩ := hpick
        exact ⟨Or.inl ⟨rfl, rfl⟩, h0, fun ho => ⟨h0, ho⟩⟩
      · split at hpick
        · rename_i h0 h1; simp at hpick
          obtain ⟨rfl, rfl⟩ := hpick
          exact ⟨Or.inr ⟨rfl, rfl⟩, h1, fun ho => ⟨ho, h1⟩⟩
        · simp at hpick
    split at h
    · -- swapped: both are algebraic, and the canonical variable of alg0 is protected
      rename_i hsw
      have hboth : other0 ∈ cx.algs := by
        rcases hp.1 with ⟨_, rfl⟩ | ⟨_, rfl⟩
        · exact hsw.2.1
        · exact hsw.1
      split at h
      · simp at h; left; exact ⟨h.1.symm, h.2⟩
      · rename_i hall
        split at h
        · simp at h; left; exact ⟨h.1.symm, h.2⟩
        · split at h
          · simp at h; left; exact ⟨h.1.symm, h.2⟩
          · rename_i hnb
            split at h
            · simp at h; left; exact ⟨h.1.symm, h.2⟩
            · rename_i hrel
              split at h
              · rename_i ar2 hadd
                simp at h; obtain ⟨rfl, rfl⟩ := h
                right
                refine ⟨rfl, other0, alg0, ?_, hboth, by simpa using hall, hnb, fun _ => Or.inr hsw.2.2,
                  fun hx => hrel (Or.inl hx), fun hx => hrel (Or.inr hx), hadd⟩
                rcases hp.1 with ⟨rfl, rfl⟩ | ⟨rfl, rfl⟩
                · exact Or.inr ⟨rfl, rfl⟩
                · exact Or.inl ⟨rfl, rfl⟩
              · simp at h
    · rename_i hsw
      split at h
      · simp at h; left; exact ⟨h.1.symm, h.2⟩
      · rename_i hall
        split at h
        · simp at h; left; exact ⟨h.1.symm, h.2⟩
        · split at h
          · simp at h; left; exact ⟨h.1.symm, h.2⟩
          · rename_i hnb
            split at h
            · simp at h; left; exact ⟨h.1.symm, h.2⟩
            · rename_i hrel
              split at h
              · rename_i ar2 hadd
                simp at h; obtain ⟨rfl, rfl⟩ := h
                right
                refine ⟨rfl, alg0, other0, hp.1, hp.2.1, by simpa using hall, hnb, ?_,
                  fun hx => hrel (Or.inl hx), fun hx => hrel (Or.inr hx), hadd⟩
                intro ho
                have := hp.2.2 ho
                left
                intro hin
                exact hsw ⟨this.1, this.2, hin⟩
              · simp at h

/-- every member of a recorded class is a variable of the model, and the members other than the
    canonical variable are algebraic -/
def JInv (cx : AliasCtx) (s : AR) : Prop :=
  ∀ x A, s.al x = some A → ∀ y ∈ A, y.2 ∈ cx.allSt ∧ (y.2 ≠ (s.canonicalSigned x).1 → y.2 ∈ cx.algs)

theorem jinv_empty (cx : AliasCtx) : JInv cx AR.empty := by
  intro x A hx; simp [AR.empty] at hx

theorem alg_of_not_dne {cx : AliasCtx} {n : String} (h1 : n ∈ cx.allSt) (h2 : n ∉ cx.doNotEliminate) : n ∈ cx.algs := by
  simp only [AliasCtx.allSt, AliasCtx.doNotEliminate, List.mem_append] at h1 h2
  rcases h1 with ((((h | h) | h) | h) | h) | h
  · exact absurd (Or.inl (Or.inl (Or.inl (Or.inr h)))) h2
  · exact absurd (Or.inl (Or.inl (Or.inl (Or.inl h)))) h2
  · exact h
  · exact absurd (Or.inl (Or.inl (Or.inr h))) h2
  · exact absurd (Or.inl (Or.inr h)) h2
  · exact absurd (Or.inr h) h2

theorem algs_sub_allSt {cx : AliasCtx} {n : String} (h : n ∈ cx.algs) : n ∈ cx.allSt := by
  simp only [AliasCtx.allSt, List.mem_append]; exact Or.inl (Or.inl (Or.inl (Or.inr h)))

/-- members of the class of `x` (trivial or not) under `JInv` -/
theorem jinv_aliases {cx : AliasCtx} {s : AR} (h : WF s) (hj : JInv cx s) {x y : SName} (hx : x.2 ∈ cx.allSt) (hy : y ∈ s.aliases x) :
    y.2 ∈ cx.allSt ∧ (y.2 ≠ (s.canonicalSigned x).1 → y.2 ∈ cx.algs) := by
  unfold AR.aliases at hy
  cases hal : s.al x with
  | none =>
    simp [hal] at hy; subst hy
    refine ⟨hx, ?_⟩
    intro hne
    exfalso; apply hne
    simp [AR.canonicalSigned, h.cm_none y hal]
  | some A =>
    simp [hal] at hy
    exact hj x A hal y hy

/-- `_make_alias`'s `add` keeps `JInv`: the canonical variable it unseats is algebraic -/
theorem jinv_add {cx : AliasCtx} {s s' : AR} {d0 d1 : String} {neg : Bool} {alg other : String}
    (h : WF s) (hj : JInv cx s) (hf : AddFacts cx s s' d0 d1 neg alg other) : WF s' ∧ JInv cx s' ∧ elimCount s' = elimCount s + 1 := by
  -- the call is effective and admissible
  have hb : ((neg, alg) : SName) ∉ s.aliases (false, other) := by
    intro hin
    have := h.aliases_symm hin
    cases neg
    · exact hf.unrel1 this
    · exact hf.unrel2 this
  have hadm : ((neg, alg) : SName) ∉ s.aliases (tog (false, other)) := by
    intro hin
    rw [h.aliases_tog] at hin
    have h1 : tog (neg, alg) ∈ s.aliases (false, other) := mem_map_tog.1 hin
    have := h.aliases_symm h1
    cases neg
    · exact hf.unrel2 (by simpa [tog] using this)
    · exact hf.unrel1 (by simpa [tog] using this)
  have hwf := h.add_wf hb hadm hf.add
  refine ⟨hwf, ?_, elimCount_add h hb hadm hf.add⟩
  -- the canonical variable of alg's class is not protected
  have hcanon_alg : (s.canonicalSigned (false, alg)).1 ∉ cx.doNotEliminate := by
    by_cases ho : other ∈ cx.algs
    · rcases hf.swap ho with h1 | h1
      · exact h1
      · exact fun h2 => hf.not_both ⟨h2, h1⟩
    · -- other is not algebraic: it is the canonical variable of its own class
      have hmem := h.canon_mem (false, other)
      have := (jinv_aliases h hj (x := (false, other)) hf.other_mem hmem).2
      have hself : (s.canonicalSigned (false, other)).1 = other := by
        by_cases he : (s.canonicalSigned (false, other)).1 = other
        · exact he
        · -- the canonical member would differ from `other` and `other` would be algebraic
          have hso := jinv_aliases h hj (x := (false, other)) hf.other_mem (h.aliases_self (false, other))
          exact absurd (hso.2 (fun e => he e.symm)) ho
      have hod : other ∈ cx.doNotEliminate := by
        by_cases hd : other ∈ cx.doNotEliminate
        · exact hd
        · exact absurd (alg_of_not_dne hf.other_mem hd) ho
      intro h2
      exact hf.not_both ⟨h2, by rw [hself]; exact hod⟩
  have hcb_base : (s.canonicalSigned (neg, alg)).1 = (s.canonicalSigned (false, alg)).1 := by
    cases neg
    · rfl
    · have := h.canon_tog (false, alg)
      simpa [tog] using congrArg Prod.fst this
  -- members of the joined class
  have hmemA : ∀ y ∈ s.aliases (false, other) ++ s.aliases (neg, alg),
      y.2 ∈ cx.allSt ∧ (y.2 ≠ (s.canonicalSigned (false, other)).1 → y.2 ∈ cx.algs) := by
    intro y hy
    rcases List.mem_append.1 hy with hy | hy
    · exact jinv_aliases h hj (x := (false, other)) hf.other_mem hy
    · have hx : ((neg, alg) : SName).2 ∈ cx.allSt := algs_sub_allSt hf.alg_mem
      have := jinv_aliases h hj (x := (neg, alg)) hx hy
      refine ⟨this.1, fun _ => ?_⟩
      by_cases he : y.2 = (s.canonicalSigned (neg, alg)).1
      · rw [he, hcb_base]
        have hm := h.canon_mem (neg, alg)
        have hin := (jinv_aliases h hj (x := (neg, alg)) hx hm).1
        simp only at hin
        rw [hcb_base] at hin
        exact alg_of_not_dne hin hcanon_alg
      · exact this.2 he
  intro x B hx y hy
  have hyB : y ∈ s'.aliases x := by simp [AR.aliases, hx, hy]
  by_cases hxA : x ∈ s.aliases (false, other) ++ s.aliases (neg, alg)
  · have e1 := add_aliases_in h hb hadm hf.add hxA
    have e2 := add_canon_in h hb hadm hf.add hxA
    rw [e1] at hyB
    rw [e2]
    exact hmemA y hyB
  · by_cases hxA' : tog x ∈ s.aliases (false, other) ++ s.aliases (neg, alg)
    · -- the negated class: same base names
      have hty : tog y ∈ s'.aliases (tog x) := by
        rw [hwf.aliases_tog x]; exact List.mem_map_of_mem hyB
      rw [add_aliases_in h hb hadm hf.add hxA'] at hty
      have := hmemA (tog y) hty
      have e2 := add_canon_in h hb hadm hf.add hxA'
      have e3 := hwf.canon_tog (tog x)
      simp only [tog_tog'] at e3
      have hbase : (s'.canonicalSigned x).1 = (s.canonicalSigned (false, other)).1 := by
        rw [e3, e2]
      rw [hbase]
      simpa [tog] using this
    · have e1 := add_aliases_out h hb hadm hf.add hxA hxA'
      have hold : s.al x = some B := by
        have := add_eq hb hf.add
        rw [this] at hx
        simpa [hxA, hxA'] using hx
      have hcan : s'.canonicalSigned x = s.canonicalSigned x := by
        rw [add_eq hb hf.add, canonicalSigned_mk]
        simp only [hxA, hxA', if_false]; rfl
      rw [hcan]
      exact hj x B hold y hy

/-- the detection loop keeps the invariants and counts one eliminated name per dropped equation -/
theorem aliasLoop_inv (E : Engine K) (cx : AliasCtx) : ∀ (es : List (Ex K)) (i : Nat) (ar : AR) (r : List (Ex K) × AR),
    aliasLoop E cx i es ar = .ok r → WF ar → JInv cx ar →
    WF r.2 ∧ JInv cx r.2 ∧ elimCount r.2 + r.1.length = elimCount ar + es.length
  | [], i, ar, r, h, hw, hj => by simp [aliasLoop] at h; subst h; exact ⟨hw, hj, by simp⟩
  | e :: es, i, ar, r, h, hw, hj => by
    simp only [aliasLoop] at h
    split at h
    · rename_i d0 d1 neg hdet
      split at h
      · simp at h
      · rename_i ar2 hmk
        rcases makeAlias_facts hmk with ⟨_, hf⟩ | ⟨_, alg, other, hf⟩
        · simp at hf
        · obtain ⟨w2, j2, c2⟩ := jinv_add hw hj hf
          obtain ⟨w3, j3, c3⟩ := aliasLoop_inv E cx es (i + 1) ar2 r h w2 j2
          exact ⟨w3, j3, by simp only [List.length_cons]; omega⟩
      · rename_i ar2 hmk
        rcases makeAlias_facts hmk with ⟨rfl, _⟩ | ⟨hf, _⟩
        · split at h
          · simp at h
          · rename_i r' hr'
            simp at h; subst h
            obtain ⟨w3, j3, c3⟩ := aliasLoop_inv E cx es (i + 1) ar2 r' hr' hw hj
            exact ⟨w3, j3, by simp only [List.length_cons]; omega⟩
        · simp at hf
    · split at h
      · simp at h
      · rename_i r' hr'
        simp at h; subst h
        obtain ⟨w3, j3, c3⟩ := aliasLoop_inv E cx es (i + 1) ar r' hr' hw hj
        exact ⟨w3, j3, by simp only [List.length_cons]; omega⟩

/-! ## what the elimination loop walks over (first pass: nothing was handled before) -/

theorem eraseDups_of_nodup {α} [BEq α] [LawfulBEq α] : ∀ (l : List α), l.Nodup → l.eraseDups = l
  | [], _ => by simp
  | x :: xs, h => by
    simp only [List.nodup_cons] at h
    rw [List.eraseDups_cons]
    have : xs.filter (fun b => !b == x) = xs := by
      rw [List.filter_eq_self]; intro y hy
      have : y ≠ x := fun e => h.1 (e ▸ hy)
      simpa using this
    rw [this, eraseDups_of_nodup xs h.2]

theorem filter_ne_length' {α} [BEq α] [LawfulBEq α] : ∀ (xs : List α) (a : α), xs.Nodup → a ∈ xs →
    (xs.filter (· != a)).length + 1 = xs.length
  | [], a, _, h => by simp at h
  | x :: xs, a, hnd, hmem => by
    simp only [List.nodup_cons] at hnd
    by_cases hx : x = a
    · subst hx
      have : xs.filter (· != x) = xs := by
        rw [List.filter_eq_self]; intro y hy
        have : y ≠ x := fun e => hnd.1 (e ▸ hy)
        simpa using this
      simp [List.filter_cons, this]
    · have hm : a ∈ xs := by
        rcases List.mem_cons.1 hmem with h | h
        · exact absurd h.symm hx
        · exact h
      have hx' : (x != a) = true := by simpa using hx
      simp only [List.filter_cons, hx', if_true, List.length_cons]
      have := filter_ne_length' xs a hnd.2 hm
      omega

theorem newAliases_first {ar : AR} (hw : WF ar) (c : String) :
    newAliases AR.empty ar c = (ar.aliases (false, c)).filter (· != (false, c)) := by
  unfold newAliases
  rw [eraseDups_of_nodup _ (hw.aliases_nodup (false, c))]
  rw [List.filter_eq_self]
  intro a _
  have : ([a] : List SName).eraseDups = [a] := eraseDups_of_nodup [a] (by simp)
  simp [alreadyHandled, AR.aliases, AR.empty, this]

theorem newAliases_first_length {ar : AR} (hw : WF ar) (c : String) :
    (newAliases AR.empty ar c).length = (ar.aliases (false, c)).length - 1 := by
  rw [newAliases_first hw]
  have := filter_ne_length' (ar.aliases (false, c)) (false, c) (hw.aliases_nodup (false, c)) (hw.aliases_self (false, c))
  exact Nat.eq_sub_of_add_eq this

theorem elimAliases_length (old ar : AR) : ∀ (cs allSt : List String) (r : List (String × Ex K) × List String),
    elimAliases old ar cs allSt = .ok r → allSt.Nodup →
    r.1.length = (cs.map fun c => (newAliases old ar c).length).sum ∧
    ∀ p ∈ r.1, ∃ c ∈ cs, ∃ a ∈ newAliases old ar c, p.1 = a.2
  | [], allSt, r, h, _ => by simp [elimAliases] at h; subst h; simp
  | c :: cs, allSt, r, h, hnd => by
    simp only [elimAliases] at h
    split at h
    · simp at h
    · split at h
      · simp at h
      · rename_i r1 hr1
        split at h
        · simp at h
        · rename_i r2 hr2
          simp at h; subst h
          obtain ⟨a1, a2, _⟩ := elimClass_spec c _ _ r1 hr1 hnd
          obtain ⟨b1, b2⟩ := elimAliases_length old ar cs _ r2 hr2 a2
          have hlen1 : r1.1.length = (newAliases old ar c).length := by
            have := congrArg List.length a1; simpa using this
          refine ⟨by simp only [List.length_append, List.map_cons, List.sum_cons]; omega, ?_⟩
          intro p hp
          rcases List.mem_append.1 hp with hp | hp
          · have : p.1 ∈ r1.1.map (·.1) := List.mem_map_of_mem hp
            rw [a1] at this
            obtain ⟨a, ha, hae⟩ := List.mem_map.1 this
            exact ⟨c, by simp, a, ha, hae.symm⟩
          · obtain ⟨c', hc', a, ha, hae⟩ := b2 p hp
            exact ⟨c', List.mem_cons_of_mem _ hc', a, ha, hae⟩

theorem elimCount_empty : elimCount AR.empty = 0 := by simp [elimCount, AR.empty]

/-- the eliminated names of a first pass: algebraic, and never a canonical variable -/
theorem first_pass_eliminated {cx : AliasCtx} {ar : AR} (hw : WF ar) (hj : JInv cx ar) {c : String} (hc : c ∈ ar.cv)
    {a : SName} (ha : a ∈ newAliases AR.empty ar c) : a.2 ∈ cx.algs ∧ a.2 ∉ ar.cv := by
  rw [newAliases_first hw] at ha
  obtain ⟨hmem, hne⟩ := List.mem_filter.1 ha
  have hne' : a ≠ (false, c) := by simpa using hne
  have hcm := (hw.cv_iff c).1 hc
  have hcs : ar.canonicalSigned (false, c) = (c, false) := by simp [AR.canonicalSigned, hcm]
  have hbase : a.2 ≠ c := by
    intro e
    obtain ⟨sg, n⟩ := a
    simp only at e; subst e
    cases sg
    · exact hne' rfl
    · exact hw.aliases_noself (false, n) (by simpa [tog] using hmem)
  cases hal : ar.al (false, c) with
  | none => rw [hw.cm_none _ hal] at hcm; simp at hcm
  | some A =>
    have hmA : a ∈ A := by simpa [AR.aliases, hal] using hmem
    have := (hj (false, c) A hal a hmA).2
    rw [hcs] at this
    refine ⟨this hbase, ?_⟩
    intro hcv
    -- a canonical name has itself as canonical variable, a member of c's class has c
    have hcm2 := (hw.cv_iff a.2).1 hcv
    have h1 : ar.canonicalSigned (false, a.2) = (a.2, false) := by simp [AR.canonicalSigned, hcm2]
    have h2 : ar.canonicalSigned a = (c, false) := by rw [hw.canon_class hmem, hcs]
    obtain ⟨sg, n⟩ := a
    cases sg
    · rw [h1] at h2; exact hbase (by simpa using congrArg Prod.fst h2)
    · have h3 := hw.canon_tog (false, n)
      rw [h1] at h3
      have : tog (false, n) = (true, n) := rfl
      rw [this, h2] at h3
      exact hbase (by simpa using (congrArg Prod.fst h3).symm)

/-- `balance_step` for a first detect_aliases pass (empty alias relation, distinct variable names) -/
theorem alias_balanced_first {E : Engine K} {allowDer : Bool} {m m' : Model K} (hempty : m.ar = AR.empty)
    (hnd : (names m.states ++ names m.ders ++ names m.algs ++ names m.inputs ++ names m.params ++ names m.consts).Nodup)
    (h : detectAliases E allowDer m = .ok m') : Balanced m m' := by
  refine alias_balanced_of_count h hnd ?_
  intro kept ar l left hloop hel
  rw [hempty] at hloop hel
  obtain ⟨hw, hj, hcnt⟩ := aliasLoop_inv E _ m.eqs 0 AR.empty (kept, ar) hloop wf_empty (jinv_empty _)
  obtain ⟨hlen, hdom⟩ := elimAliases_length AR.empty ar ar.cv _ (l, left) hel hnd
  have hsum : (ar.cv.map fun c => (newAliases AR.empty ar c).length).sum = elimCount ar := by
    unfold elimCount
    congr 1
    apply List.map_congr_left
    intro c _
    exact newAliases_first_length hw c
  rw [elimCount_empty] at hcnt
  simp only at hcnt hlen
  refine ⟨by omega, ?_⟩
  intro x hx
  obtain ⟨p, hp, rfl⟩ := List.mem_map.1 hx
  obtain ⟨c, hc, a, ha, hpa⟩ := hdom p hp
  rw [hpa]
  exact (first_pass_eliminated hw hj hc ha).1

/-- `closed_step` for a first detect_aliases pass -/
theorem alias_closed_first {I : Interp K} {E : Engine K} (hE : EngineOk I E) {allowDer : Bool} {m m' : Model K}
    (hempty : m.ar = AR.empty) (hc : Closed m)
    (hnd : (names m.states ++ names m.ders ++ names m.algs ++ names m.inputs ++ names m.params ++ names m.consts).Nodup)
    (h : detectAliases E allowDer m = .ok m') : Closed m' := by
  refine alias_closed_of_kept hE h hc hnd ?_
  intro kept ar l left hloop hel
  rw [hempty] at hloop hel
  obtain ⟨hw, hj, _⟩ := aliasLoop_inv E _ m.eqs 0 AR.empty (kept, ar) hloop wf_empty (jinv_empty _)
  obtain ⟨_, hdom⟩ := elimAliases_length AR.empty ar ar.cv _ (l, left) hel hnd
  intro c hcv hin
  obtain ⟨p, hp, hpc⟩ := List.mem_map.1 hin
  obtain ⟨c', hc', a, ha, hpa⟩ := hdom p hp
  have := (first_pass_eliminated hw hj hc' ha).2
  rw [← hpa, hpc] at this
  exact this hcv

end PymocaVerif.Simplify
