import PymocaVerif.Lemmas.SimplifyAliasComplete
/-!
# Simplify: eliminable_variable_expression loses no constraint
Helper lemmas for C14.
-/
set_option linter.unusedSectionVars false
set_option linter.unusedSimpArgs false
namespace PymocaVerif.Simplify
open PymocaVerif.AliasRel Lean.Grind

variable {K : Type} [Field K] [DecidableEq K]

/-! ## eliminable_variable_expression loses nothing -/

/-- converse of `extract_sound` -/
theorem extract_complete {I : Interp K} {σ : Env K} (cx : ElimCtx) (e : Ex K) :
    ∀ x v, extract cx e = some (x, v) → ExtractPre I σ e → σ x = v.eval I σ → e.eval I σ = 0 := by
  fun_induction extract cx e <;> intro x v h hp he
  all_goals (try (simp at h))
  all_goals (try (obtain ⟨rfl, rfl⟩ := h))
  all_goals (try (simp [Ex.eval] at he ⊢ <;> grind))
  case case3 c e' x' v' hx ih =>
    simp only [ExtractPre] at hp
    simp only [Ex.eval, hp.1, if_false] at he ⊢
    exact ih _ _ hx hp.2 he
  case case6 | case7 | case8 =>
    repeat' (split at h)
    all_goals (try (simp at h))
    all_goals (try (obtain ⟨rfl, rfl⟩ := h))
    all_goals (simp [Ex.eval] at he ⊢ <;> grind)
  case case16 a b direct hd =>
    simp +zetaDelta only [] at hd
    repeat' (split at hd)
    all_goals (try (simp at hd))
    all_goals (try (obtain ⟨rfl, rfl⟩ := hd))
    all_goals (simp [Ex.eval] at he ⊢ <;> grind)
  case case17 c1 e1 c2 e2 v1 x2 v2 hx2 direct hdn hx1 ih1 ih2 =>
    simp only [ExtractPre] at hp
    obtain ⟨hc, hp1, hp2⟩ := hp
    simp only [Ex.eval] at he ⊢
    rcases hc with ⟨h1, h2⟩ | ⟨h1, h2⟩
    · simp only [h1, h2, if_false, if_true] at he ⊢
      have := ih1 _ _ hx1 hp1 (by grind)
      rw [this]; grind
    · simp only [h1, h2, if_false, if_true] at he ⊢
      have := ih2 _ _ hx2 hp2 (by grind)
      rw [this]; grind

/-- every equation is kept or was turned into one of the extracted bindings; the extracted names are distinct -/
theorem elimLoop_dropped (states allSt matched : List String) :
    ∀ (es : List (Ex K)) (algs : List (Var K)) (r : List (Ex K) × List (String × Ex K) × List (Var K)),
      elimLoop states allSt matched es algs = .ok r →
      (∀ e ∈ es, e ∈ r.1 ∨ ∃ cx x v, extract cx e = some (x, v) ∧ (x, v) ∈ r.2.1) ∧ (r.2.1.map (·.1)).Nodup
  | [], algs, r, h => by simp [elimLoop] at h; subst h; simp
  | e :: es, algs, r, h => by
    simp only [elimLoop] at h
    split at h
    · rename_i x v hext
      split at h
      · simp at h
      · split at h
        · simp at h
        · rename_i r' hr'
          split at h
          · simp at h
          · rename_i hdup
            simp at h; subst h
            obtain ⟨ih1, ih2⟩ := elimLoop_dropped states allSt matched es _ r' hr'
            refine ⟨?_, ?_⟩
            · intro y hy
              rcases List.mem_cons.1 hy with rfl | hy
              · exact Or.inr ⟨_, x, v, hext, by simp⟩
              · rcases ih1 y hy with h1 | ⟨cx, x', v', h1, h2⟩
                · exact Or.inl h1
                · exact Or.inr ⟨cx, x', v', h1, List.mem_cons_of_mem _ h2⟩
            · simp only [List.map_cons, List.nodup_cons]
              refine ⟨?_, ih2⟩
              intro hin
              apply hdup
              simpa using hin
    · split at h
      · simp at h
      · rename_i r' hr'
        simp at h; subst h
        obtain ⟨ih1, ih2⟩ := elimLoop_dropped states allSt matched es algs r' hr'
        refine ⟨?_, ih2⟩
        intro y hy
        rcases List.mem_cons.1 hy with rfl | hy
        · exact Or.inl (by simp)
        · rcases ih1 y hy with h1 | h1
          · exact Or.inl (List.mem_cons_of_mem _ h1)
          · exact Or.inr h1

/-- eliminable_variable_expression loses no constraint (algebraic variables; the resolved values
    mention none of the eliminated names) -/
theorem elim_complete {I : Interp K} {E : Engine K} (hE : EngineOk I E) {expandMx : Bool} {matched : List String}
    {m m' : Model K} {τ : Env K} (h : eliminateVariables E expandMx matched m = .ok m')
    (hpre : ∀ σ : Env K, ∀ e ∈ m.eqs, ExtractPre I σ e)
    (hclosed : ∀ r, elimLoop (names m.states) (names m.states ++ names m.algs) matched m.eqs m.algs = .ok r →
      ∀ p ∈ elimList E r.2.1, ∀ n ∈ p.2.syms, n ∉ r.2.1.map (·.1))
    (hvals : ∀ r, elimLoop (names m.states) (names m.states ++ names m.algs) matched m.eqs m.algs = .ok r →
      ∀ v ∈ m.params ++ m.consts, v.name ∉ r.2.1.map (·.1) ∧ ∀ t, v.value = some t → ∀ n ∈ t.syms, n ∉ r.2.1.map (·.1))
    (hfree : ∀ r, elimLoop (names m.states) (names m.states ++ names m.algs) matched m.eqs m.algs = .ok r →
      ARFree (r.2.1.map (·.1)) m.ar)
    (hs : Sat I τ m') :
    ∃ σ, Sat I σ m ∧ ∀ r, elimLoop (names m.states) (names m.states ++ names m.algs) matched m.eqs m.algs = .ok r →
      ∀ n, n ∉ r.2.1.map (·.1) → σ n = τ n := by
  unfold eliminateVariables at h
  split at h
  · simp at h
  · split at h
    · simp at h
    · rename_i r hr
      obtain ⟨hdrop, hnd⟩ := elimLoop_dropped _ _ _ m.eqs m.algs r hr
      simp only at h
      split at h
      · rename_i hemp
        simp at h; subst h
        have hl0 : r.2.1 = [] := by simpa using hemp
        refine ⟨τ, ⟨?_, hs.params, hs.consts, hs.alias⟩, fun _ _ _ _ => rfl⟩
        intro e he
        rcases hdrop e he with h1 | ⟨_, x, v, _, h2⟩
        · exact hs.eqs e h1
        · rw [hl0] at h2; simp at h2
      · simp at h; subst h
        have hlf : (elimList E r.2.1).map (·.1) = r.2.1.map (·.1) := by
          unfold elimList
          exact zip_fst_of_length _ _ (by rw [fixValues_length]; simp)
        have hback := fix_back hE r.2.1 hnd 100 τ (by
          intro t ht n hn
          obtain ⟨i, hi, rfl⟩ := List.mem_iff_getElem.1 ht
          have hlen : i < (r.2.1.map (·.1)).length := by
            rw [fixValues_length] at hi; simpa using hi
          have hmem : ((r.2.1.map (·.1))[i], (fixValues E (r.2.1.map (·.1)) 100 (r.2.1.map (·.2))).1[i]) ∈ elimList E r.2.1 := by
            unfold elimList
            rw [List.mem_iff_getElem]
            exact ⟨i, by simp only [List.length_zip, List.length_map] at hlen ⊢; omega, by simp⟩
          exact hclosed r hr _ hmem n hn)
        have hoff : ∀ n, n ∉ r.2.1.map (·.1) → upd I τ (elimList E r.2.1) n = τ n :=
          fun n hn => upd_off τ _ n (by rw [hlf]; exact hn)
        refine ⟨upd I τ (elimList E r.2.1), ⟨?_, ?_, ?_, ?_⟩, ?_⟩
        · have hkept : EqOk I (upd I τ (elimList E r.2.1)) r.1 := eqok_back hE (by simpa [elimList] using hs.eqs)
          intro e he
          rcases hdrop e he with h1 | ⟨cx, x, v, h1, h2⟩
          · exact hkept e h1
          · exact extract_complete cx e x v h1 (hpre _ e he) (hback (x, v) h2)
        · intro v hv t ht
          have hv' := hvals r hr v (List.mem_append_left _ hv)
          rw [hoff _ hv'.1, hs.params v hv t ht]
          apply eval_congr
          intro n hn
          exact (hoff n (hv'.2 t ht n hn)).symm
        · intro v hv t ht
          have hv' := hvals r hr v (List.mem_append_right _ hv)
          rw [hoff _ hv'.1, hs.consts v hv t ht]
          apply eval_congr
          intro n hn
          exact (hoff n (hv'.2 t ht n hn)).symm
        · exact aliasOk_of_agree (hfree r hr) hoff hs.alias
        · intro r2 hr2 n hn
          rw [hr] at hr2
          simp at hr2; subst hr2
          exact hoff n hn

end PymocaVerif.Simplify
