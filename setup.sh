#!/bin/bash
# Offline build of the Lean side: every property module and every model driver.
set -e
cd "$(dirname "$0")/lean"
exes=$(grep -A1 '^\[\[lean_exe\]\]' lakefile.toml | sed -n 's/^name = "\(.*\)"/\1/p')
lake build PymocaVerif $exes
echo "setup ok: $(ls .lake/build/bin | tr '\n' ' ')"
