import Drivers.Proto
import PymocaVerif.Model.ObjGraphJson
/-! Driver for C06: `copy.deepcopy` with pymoca's two hooks on an exported object graph (shape of
    the copy, hooks left on the originals), computed by the `ObjGraph` model. -/
open Lean Drivers PymocaVerif.ObjGraph

def main : IO Unit := serve handleGraph
