import Drivers.Proto
import PymocaVerif.Model.ClassAsm
/-! Driver for C04: decodes a class description, runs the listener machine on its event stream and
    (separately) the structural specification, and prints the resulting trees. -/
open Lean Drivers PymocaVerif.ClassAsm

def strs (j : Json) : Except String (List String) := do
  (← j.getArr?).toList.mapM (·.getStr?)

def optStrs (j : Json) (k : String) : Except String (Option (List String)) :=
  match j.getObjVal? k with
  | .ok Json.null => pure none
  | .ok v => do pure (some (← strs v))
  | .error _ => pure none

def getStrs (j : Json) (k : String) : Except String (List String) := do strs (← j.getObjVal? k)

def parseVis (s : String) : Except String Vis :=
  match s with
  | "public" => pure .pub
  | "protected" => pure .prot
  | "private" => pure .priv
  | o => throw s!"bad visibility {o}"

def parseModItem (j : Json) : Except String ModItem :=
  match j.getObjVal? "cm" with
  | .ok v => do pure (.cm (← strs v))
  | .error _ => do pure (.val (← getStr j "val"))

def parseDecl (j : Json) : Except String Decl := do
  pure (Decl.mk (← getStr j "name") (← optStrs j "dims") (← (← getArr j "mod").toList.mapM parseModItem)
         (← getNat j "modTicks") (← getStr j "comment") (← getNat j "annTicks"))

def parseExtEv (j : Json) : Except String ExtEv :=
  match j with
  | .str "m" => pure .m
  | _ => do
    let d ← j.getObjVal? "d"
    pure (.d (← getStrs d "prefixes") (← getStrs d "type") (← getStr d "name"))

def parseImp (j : Json) : Except String ImpSrc := do
  let form ← getStr j "form"
  let path ← getStrs j "path"
  match form with
  | "qual" => pure (.qual path)
  | "short" => pure (.short (← getStr j "short") path)
  | "star" => pure (.star path)
  | "list" => pure (.list path (← getStrs j "names"))
  | o => throw s!"bad import form {o}"

mutual
partial def parseClass (j : Json) : Except String ClassSrc := do
  let kind ← getStr j "kind"
  let isPartial ← getBool j "partial"
  let enc ← getBool j "encapsulated"
  let name ← getStr j "name"
  let comment ← getStr j "comment"
  let ann ← optStrs j "annotation"
  let annTicks ← getNat j "annTicks"
  let hdr : ClassHdr := ClassHdr.mk kind isPartial enc name comment ann annTicks
  let first ← parseElems (← getArr j "first").toList
  let rest ← parseSections (← getArr j "sections").toList
  pure (.mk hdr first rest)
partial def parseElems : List Json → Except String Elems
  | [] => pure .nil
  | j :: t => do
    let rest ← parseElems t
    match ← getStr j "t" with
    | "comp" =>
      let c : Clause := { prefixes := ← getStrs j "prefixes", type := ← getStrs j "type", cdims := ← optStrs j "cdims",
                          decls := ← (← getArr j "decls").toList.mapM parseDecl }
      pure (.comp c rest)
    | "ext" =>
      let e : ExtSrc := { path := ← getStrs j "path", args := ← getStrs j "args",
                          evs := ← (← getArr j "evs").toList.mapM parseExtEv }
      pure (.ext e rest)
    | "imp" => pure (.imp (← parseImp j) rest)
    | "cls" => pure (.cls (← parseClass (← getObj j "cls")) rest)
    | "short" =>
      let s : ShortSrc := ShortSrc.mk (← getStr j "kind") (← getStr j "name") (← getStrs j "path")
                            (← getStrs j "args") (← getNat j "ticks") (← getStr j "comment")
      pure (.short s rest)
    | o => throw s!"bad element {o}"
partial def parseSections : List Json → Except String Sections
  | [] => pure .nil
  | j :: t => do
    let rest ← parseSections t
    match ← getStr j "t" with
    | "elems" => pure (.elems (← parseVis (← getStr j "vis")) (← parseElems (← getArr j "elems").toList) rest)
    | "eqs" => pure (.eqs (← getBool j "initial") (← getStrs j "items") rest)
    | "algs" => pure (.algs (← getBool j "initial") (← getStrs j "items") rest)
    | o => throw s!"bad section {o}"
end

def parseFile (j : Json) : Except String (List (Bool × ClassSrc)) := do
  (← getArr j "classes").toList.mapM fun t => do
    pure (← getBool t "final", ← parseClass (← getObj t "cls"))

def visStr : Vis → String
  | .priv => "private" | .prot => "protected" | .pub => "public"

def jOptStrs : Option (List String) → Json
  | none => Json.null
  | some l => jstrs l

def symJson (y : Sym) : Json :=
  Json.mkObj [("name", y.name), ("type", jstrs y.type), ("prefixes", jstrs y.prefixes),
    ("dims", Json.arr (y.dims.map jstrs).toArray), ("comment", y.comment), ("vis", visStr y.vis),
    ("order", Json.num (y.order : Int)), ("cmod", jOptStrs y.cmod),
    ("ids", Json.arr #[Json.num (y.typeId : Int), Json.num (y.dimsId : Int), Json.num (y.prefId : Int)])]

def pathsJson (ps : List (List String)) : Json := Json.arr (ps.map jstrs).toArray

def importJson (p : String × ImportVal) : Json :=
  Json.arr #[Json.str p.1,
    match p.2 with
    | .ref path => Json.mkObj [("k", "ref"), ("path", jstrs path)]
    | .short paths n => Json.mkObj [("k", "short"), ("paths", pathsJson paths), ("name", n)]
    | .star paths => Json.mkObj [("k", "star"), ("paths", pathsJson paths)]]

partial def classJson : ClassAst → Json
  | .mk i cs =>
    Json.mkObj [("name", match i.name with | some n => Json.str n | none => Json.null),
      ("kind", i.kind), ("partial", i.partial_), ("encapsulated", i.encapsulated), ("final", i.final),
      ("comment", i.comment), ("symbols", Json.arr (i.symbols.map symJson).toArray),
      ("extends", Json.arr (i.extends_.map fun e =>
          Json.mkObj [("path", jstrs e.path), ("args", jstrs e.args), ("vis", visStr e.vis)]).toArray),
      ("imports", Json.arr (i.imports.map importJson).toArray),
      ("equations", jstrs i.equations), ("initial_equations", jstrs i.initialEquations),
      ("statements", jstrs i.statements), ("initial_statements", jstrs i.initialStatements),
      ("annotation", jOptStrs i.annotation),
      ("classes", Json.arr (cs.map classJson).toArray)]

def resultJson : Except Err (List ClassAst) → Json
  | .ok cs => Json.mkObj [("outcome", "ok"), ("classes", Json.arr (cs.map classJson).toArray)]
  | .error (.alreadyDefined n) => Json.mkObj [("outcome", "error"), ("err", "alreadyDefined"), ("name", n)]
  | .error (.alreadyImported n) => Json.mkObj [("outcome", "error"), ("err", "alreadyImported"), ("name", n)]
  | .error .noneSymbol => Json.mkObj [("outcome", "error"), ("err", "noneSymbol"), ("name", "")]
  | .error (.model m) => Json.mkObj [("outcome", "error"), ("err", "model"), ("name", m)]

def handle (req : Json) : Except String Json := do
  let op ← getStr req "op"
  match op with
  | "asm.run" => do
    let file ← parseFile (← getObj req "file")
    let r := resultJson (runListener file)
    let sp := resultJson (expected file)
    let same := r.compress == sp.compress
    let base : List (String × Json) := [("ok", Json.bool true), ("result", r), ("refines", Json.bool same),
      ("events", Json.num ((fileEvents file).length : Int))]
    pure (Json.mkObj (base ++ (if same then [] else [("spec", sp)])))
  | o => throw s!"unknown-op {o}"

def main : IO Unit := serve handle
