import Drivers.Proto
import PymocaVerif.Model.ObjGraphJson
/-! Driver for C05: `find_class`/`deepcopy` shapes and the write footprint of `tree.flatten` on an
    exported object graph, computed by the `ObjGraph` model. -/
open Lean Drivers PymocaVerif.ObjGraph

def main : IO Unit := serve handleGraph
